package parith

import (
	"context"
	"encoding/json"
	"fmt"
	"io"
	"os"
	"runtime/debug"
	"strconv"
	"strings"
	"testing"

	kruisev1alpha1 "github.com/openkruise/kruise-api/apps/v1alpha1"
	kruisev1beta1 "github.com/openkruise/kruise-api/apps/v1beta1"
	rolloutapi "github.com/openkruise/rollouts/api"
	"github.com/openkruise/rollouts/api/v1alpha1"
	"github.com/openkruise/rollouts/api/v1beta1"
	batchcontext "github.com/openkruise/rollouts/pkg/controller/batchrelease/context"
	"github.com/openkruise/rollouts/pkg/controller/batchrelease/control/bluegreenstyle"
	bgcloneset "github.com/openkruise/rollouts/pkg/controller/batchrelease/control/bluegreenstyle/cloneset"
	bgdeployment "github.com/openkruise/rollouts/pkg/controller/batchrelease/control/bluegreenstyle/deployment"
	"github.com/openkruise/rollouts/pkg/controller/batchrelease/control/canarystyle"
	canarydeployment "github.com/openkruise/rollouts/pkg/controller/batchrelease/control/canarystyle/deployment"
	"github.com/openkruise/rollouts/pkg/controller/batchrelease/control/partitionstyle"
	partcloneset "github.com/openkruise/rollouts/pkg/controller/batchrelease/control/partitionstyle/cloneset"
	partdaemonset "github.com/openkruise/rollouts/pkg/controller/batchrelease/control/partitionstyle/daemonset"
	partdeployment "github.com/openkruise/rollouts/pkg/controller/batchrelease/control/partitionstyle/deployment"
	partstatefulset "github.com/openkruise/rollouts/pkg/controller/batchrelease/control/partitionstyle/statefulset"
	"github.com/openkruise/rollouts/pkg/util"
	apps "k8s.io/api/apps/v1"
	corev1 "k8s.io/api/core/v1"
	metav1 "k8s.io/apimachinery/pkg/apis/meta/v1"
	"k8s.io/apimachinery/pkg/runtime"
	"k8s.io/apimachinery/pkg/runtime/schema"
	"k8s.io/apimachinery/pkg/types"
	"k8s.io/apimachinery/pkg/util/intstr"
	clientgoscheme "k8s.io/client-go/kubernetes/scheme"
	"k8s.io/client-go/tools/record"
	"k8s.io/klog/v2"
	"k8s.io/utils/pointer"
	"sigs.k8s.io/controller-runtime/pkg/client"
	"sigs.k8s.io/controller-runtime/pkg/client/fake"

	"verifharness/vlib"
)

func TestMain(m *testing.M) {
	klog.SetOutput(io.Discard)
	klog.LogToStderr(false)
	debug.SetGCPercent(400) // the fake API server is JSON round trips; trade memory for time
	vlib.Main(m)
}

var scheme = runtime.NewScheme()

func init() {
	_ = clientgoscheme.AddToScheme(scheme)
	_ = rolloutapi.AddToScheme(scheme)
	_ = kruisev1alpha1.AddToScheme(scheme)
	_ = kruisev1beta1.AddToScheme(scheme)
}

// ---------------------------------------------------------------------------------------------
// plan values and the reference written from the property statement

// Val is one batch value of a release plan: a percentage "Val%" or the integer Val.
type Val struct {
	Pct bool `json:"pct"`
	V   int  `json:"v"`
}

func (v Val) String() string {
	if v.Pct {
		return fmt.Sprintf("%d%%", v.V)
	}
	return strconv.Itoa(v.V)
}

func (v Val) intstr() intstr.IntOrString {
	if v.Pct {
		return intstr.FromString(fmt.Sprintf("%d%%", v.V))
	}
	return intstr.FromInt(v.V)
}

func ceilDiv(a, b int) int { return (a + b - 1) / b }

func clamp(x, lo, hi int) int {
	if x < lo {
		return lo
	}
	if x > hi {
		return hi
	}
	return x
}

// refPlanned is "the replicas configured for the step": ceil(p*n/100) clamped to [0,n] for a
// percentage, min(k,n) for an integer.
func refPlanned(v Val, n int) int {
	if v.Pct {
		return clamp(ceilDiv(v.V*n, 100), 0, n)
	}
	return clamp(v.V, 0, n)
}

// refSlack is the documented percent-rounding slack: at most 1% of the workload size.
func refSlack(n int) int { return ceilDiv(n, 100) }

// scaledUp resolves an int-or-percent against n rounding a percentage up (no clamping).
func scaledUp(x intstr.IntOrString, n int) int {
	if x.Type == intstr.Int {
		return int(x.IntVal)
	}
	p, err := strconv.Atoi(strings.TrimSuffix(x.StrVal, "%"))
	if err != nil || !strings.HasSuffix(x.StrVal, "%") {
		panic(fmt.Sprintf("harness: knob value %q is not a percentage", x.StrVal))
	}
	return ceilDiv(p*n, 100)
}

// kruisePartitionStable is how Kruise (CloneSet sync, util.CalculatePartitionReplicas) turns
// spec.updateStrategy.partition into the number of pods kept on the old revision: a percentage is
// rounded UP; if that gives all n pods although the percentage is below 100% and n > 1, one pod is
// released; the result is clamped to [0,n]. (Older Kruise versions lack the middle rule; it never
// fires for a value ParseIntegerAsPercentageIfPossible returns.)
func kruisePartitionStable(p intstr.IntOrString, n int) int {
	v := scaledUp(p, n)
	if n > 1 && v == n && p.Type == intstr.String && p.StrVal != "100%" {
		v = n - 1
	}
	return clamp(v, 0, n)
}

// onePercentFallbackClass is the input class of the known finding sigOnePercentFallback: a
// percentage plan whose old-revision remainder s = n - planned satisfies 1 <= s and s*100 < n,
// which is where ParseIntegerAsPercentageIfPossible's floor percentage is "0%" and the function
// answers "1%" instead. (Equivalently: plan "99%", n > 100, n not a multiple of 100.)
func onePercentFallbackClass(v Val, n int) bool {
	if !v.Pct {
		return false
	}
	s := n - refPlanned(v, n)
	return s >= 1 && s*100 < n
}

// excludeKnown: is the input class of the listed finding sig steered away from? Development
// switch: VERIF_ARITH_NOEXCLUDE=all (or a comma-separated list of signatures) searches inside the
// classes again, e.g. to confirm that a proposed fix closes a finding.
func excludeKnown(sig string) bool {
	if !knownOpen[sig] {
		return false
	}
	off := os.Getenv("VERIF_ARITH_NOEXCLUDE")
	if off == "all" || off == "1" {
		return false
	}
	for _, s := range strings.Split(off, ",") {
		if s == sig {
			return false
		}
	}
	return true
}

// arithN is the replicas bound of the exhaustive domain.
func arithN() int {
	if s := os.Getenv("VERIF_ARITH_N"); s != "" {
		if x, err := strconv.Atoi(s); err == nil && x >= 0 {
			return x
		}
	}
	if vlib.Thorough() {
		return 1200
	}
	return 400
}

func shard() (int, int) {
	i, _ := strconv.Atoi(os.Getenv("VERIF_SHARD"))
	k, _ := strconv.Atoi(os.Getenv("VERIF_NSHARDS"))
	if k <= 0 {
		k = 1
	}
	if i < 0 || i >= k {
		i = 0
	}
	return i, k
}

// ---------------------------------------------------------------------------------------------
// the eight-minus-one control planes (native and Advanced StatefulSet share one implementation)

type Kind int

const (
	PartCloneSet Kind = iota
	PartStatefulSet
	PartAdvancedStatefulSet
	PartDaemonSet
	PartDeployment
	CanaryDeployment
	BGCloneSet
	BGDeployment
	nKinds
)

var kindNames = [...]string{"partition/CloneSet", "partition/StatefulSet", "partition/AdvancedStatefulSet", "partition/DaemonSet",
	"partition/Deployment", "canary/Deployment", "bluegreen/CloneSet", "bluegreen/Deployment"}

func (k Kind) String() string { return kindNames[k] }

func kindByName(s string) Kind {
	for i, n := range kindNames {
		if n == s {
			return Kind(i)
		}
	}
	panic("harness: unknown kind " + s)
}

const (
	ns         = "default"
	wname      = "demo"
	releaseUID = types.UID("uid-release")
	wUID       = types.UID("uid-workload")
	newRev     = "rev-new"
	oldRev     = "rev-old"
)

var wkey = types.NamespacedName{Namespace: ns, Name: wname}

func podTemplate() corev1.PodTemplateSpec {
	return corev1.PodTemplateSpec{
		ObjectMeta: metav1.ObjectMeta{Labels: map[string]string{"app": "demo"}},
		Spec:       corev1.PodSpec{Containers: []corev1.Container{{Name: "main", Image: "demo:v2"}}},
	}
}

func selector() *metav1.LabelSelector {
	return &metav1.LabelSelector{MatchLabels: map[string]string{"app": "demo"}}
}

func (k Kind) gvk() schema.GroupVersionKind {
	switch k {
	case PartCloneSet, BGCloneSet:
		return util.ControllerKruiseKindCS
	case PartStatefulSet:
		return util.ControllerKindSts
	case PartAdvancedStatefulSet:
		return util.ControllerKruiseKindSts
	case PartDaemonSet:
		return util.ControllerKruiseKindDS
	default:
		return util.ControllerKindDep
	}
}

func (k Kind) style() v1beta1.RollingStyleType {
	switch k {
	case CanaryDeployment:
		return v1beta1.CanaryRollingStyle
	case BGCloneSet, BGDeployment:
		return v1beta1.BlueGreenRollingStyle
	}
	return v1beta1.PartitionRollingStyle
}

func newRelease(k Kind, plan []Val) *v1beta1.BatchRelease {
	g := k.gvk()
	r := &v1beta1.BatchRelease{
		TypeMeta:   metav1.TypeMeta{APIVersion: v1beta1.GroupVersion.String(), Kind: "BatchRelease"},
		ObjectMeta: metav1.ObjectMeta{Name: "release", Namespace: ns, UID: releaseUID, Generation: 1},
		Spec: v1beta1.BatchReleaseSpec{
			WorkloadRef: v1beta1.ObjectRef{APIVersion: g.GroupVersion().String(), Kind: g.Kind, Name: wname},
			ReleasePlan: v1beta1.ReleasePlan{RollingStyle: k.style()},
		},
	}
	r.Status.UpdateRevision = newRev
	r.Status.StableRevision = oldRev
	setPlan(r, plan)
	return r
}

func setPlan(r *v1beta1.BatchRelease, plan []Val) {
	r.Spec.ReleasePlan.Batches = r.Spec.ReleasePlan.Batches[:0]
	for _, v := range plan {
		r.Spec.ReleasePlan.Batches = append(r.Spec.ReleasePlan.Batches, v1beta1.ReleaseBatch{CanaryReplicas: v.intstr()})
	}
}

// newWorkload builds the workload as the API server holds it when the BatchRelease controller
// first sees it: CRD/apps defaults applied, paused by the Rollout workload webhook, old revision
// everywhere (updated counts zero), status observed.
func newWorkload(k Kind, n int32) []client.Object {
	meta := metav1.ObjectMeta{Name: wname, Namespace: ns, UID: wUID, Generation: 1, Labels: map[string]string{"app": "demo"}}
	mu20 := intstr.FromString("20%")
	mu25, ms25 := intstr.FromString("25%"), intstr.FromString("25%")
	switch k {
	case PartCloneSet, BGCloneSet:
		p100 := intstr.FromString("100%")
		cs := &kruisev1alpha1.CloneSet{
			TypeMeta:   metav1.TypeMeta{APIVersion: kruisev1alpha1.GroupVersion.String(), Kind: "CloneSet"},
			ObjectMeta: meta,
			Spec: kruisev1alpha1.CloneSetSpec{
				Replicas: pointer.Int32(n), Selector: selector(), Template: podTemplate(),
				UpdateStrategy: kruisev1alpha1.CloneSetUpdateStrategy{
					Type: kruisev1alpha1.RecreateCloneSetUpdateStrategyType, Partition: &p100, MaxUnavailable: &mu20,
				},
			},
			Status: kruisev1alpha1.CloneSetStatus{ObservedGeneration: 1, Replicas: n, ReadyReplicas: n, AvailableReplicas: n,
				UpdateRevision: newRev, CurrentRevision: oldRev},
		}
		if k == BGCloneSet {
			// the workload webhook pauses a blue-green CloneSet
			cs.Spec.UpdateStrategy.Paused = true
		}
		return []client.Object{cs}
	case PartStatefulSet:
		sts := &apps.StatefulSet{
			TypeMeta:   metav1.TypeMeta{APIVersion: "apps/v1", Kind: "StatefulSet"},
			ObjectMeta: meta,
			Spec: apps.StatefulSetSpec{
				Replicas: pointer.Int32(n), Selector: selector(), Template: podTemplate(), ServiceName: "demo",
				UpdateStrategy: apps.StatefulSetUpdateStrategy{Type: apps.RollingUpdateStatefulSetStrategyType,
					RollingUpdate: &apps.RollingUpdateStatefulSetStrategy{Partition: pointer.Int32(0)}},
			},
			Status: apps.StatefulSetStatus{ObservedGeneration: 1, Replicas: n, ReadyReplicas: n, AvailableReplicas: n,
				UpdateRevision: newRev, CurrentRevision: oldRev},
		}
		return []client.Object{sts}
	case PartAdvancedStatefulSet:
		sts := &kruisev1beta1.StatefulSet{
			TypeMeta:   metav1.TypeMeta{APIVersion: kruisev1beta1.GroupVersion.String(), Kind: "StatefulSet"},
			ObjectMeta: meta,
			Spec: kruisev1beta1.StatefulSetSpec{
				Replicas: pointer.Int32(n), Selector: selector(), Template: podTemplate(), ServiceName: "demo",
				UpdateStrategy: kruisev1beta1.StatefulSetUpdateStrategy{Type: apps.RollingUpdateStatefulSetStrategyType,
					RollingUpdate: &kruisev1beta1.RollingUpdateStatefulSetStrategy{Partition: pointer.Int32(0)}},
			},
			Status: kruisev1beta1.StatefulSetStatus{ObservedGeneration: 1, Replicas: n, ReadyReplicas: n, AvailableReplicas: n,
				UpdateRevision: newRev, CurrentRevision: oldRev},
		}
		return []client.Object{sts}
	case PartDaemonSet:
		one := intstr.FromInt(1)
		ds := &kruisev1alpha1.DaemonSet{
			TypeMeta:   metav1.TypeMeta{APIVersion: kruisev1alpha1.GroupVersion.String(), Kind: "DaemonSet"},
			ObjectMeta: meta,
			Spec: kruisev1alpha1.DaemonSetSpec{
				Selector: selector(), Template: podTemplate(),
				UpdateStrategy: kruisev1alpha1.DaemonSetUpdateStrategy{Type: kruisev1alpha1.RollingUpdateDaemonSetStrategyType,
					RollingUpdate: &kruisev1alpha1.RollingUpdateDaemonSet{MaxUnavailable: &one, Paused: pointer.Bool(true)}},
			},
			Status: kruisev1alpha1.DaemonSetStatus{ObservedGeneration: 1, DesiredNumberScheduled: n, CurrentNumberScheduled: n,
				NumberReady: n, NumberAvailable: n, DaemonSetHash: newRev},
		}
		return []client.Object{ds}
	default: // the three Deployment planes
		d := &apps.Deployment{
			TypeMeta:   metav1.TypeMeta{APIVersion: "apps/v1", Kind: "Deployment"},
			ObjectMeta: meta,
			Spec: apps.DeploymentSpec{
				Replicas: pointer.Int32(n), Selector: selector(), Template: podTemplate(), Paused: true,
				ProgressDeadlineSeconds: pointer.Int32(600), RevisionHistoryLimit: pointer.Int32(10),
				Strategy: apps.DeploymentStrategy{Type: apps.RollingUpdateDeploymentStrategyType,
					RollingUpdate: &apps.RollingUpdateDeployment{MaxSurge: &ms25, MaxUnavailable: &mu25}},
			},
			Status: apps.DeploymentStatus{ObservedGeneration: 1, Replicas: n, ReadyReplicas: n, AvailableReplicas: n},
		}
		objs := []client.Object{d}
		if k == BGDeployment {
			// the stable ReplicaSet (old template) exists; the new one is created by the Deployment
			// controller once the blue-green control plane un-pauses the Deployment (see comply).
			old := podTemplate()
			old.Spec.Containers[0].Image = "demo:v1"
			old.Labels[apps.DefaultDeploymentUniqueLabelKey] = "old"
			objs = append(objs, &apps.ReplicaSet{
				TypeMeta: metav1.TypeMeta{APIVersion: "apps/v1", Kind: "ReplicaSet"},
				ObjectMeta: metav1.ObjectMeta{Name: wname + "-old", Namespace: ns, UID: "uid-rs-old", Labels: old.Labels,
					CreationTimestamp: metav1.Unix(1000, 0),
					OwnerReferences:   []metav1.OwnerReference{*metav1.NewControllerRef(d, util.ControllerKindDep)}},
				Spec:   apps.ReplicaSetSpec{Replicas: pointer.Int32(n), Selector: selector(), Template: old},
				Status: apps.ReplicaSetStatus{Replicas: n, ReadyReplicas: n, AvailableReplicas: n, ObservedGeneration: 1},
			})
		}
		return objs
	}
}

// canaryDeploymentFor mirrors what realCanaryController.create builds from the stable Deployment
// (the fake client of controller-runtime v0.14.6 has no generateName, so the harness names it).
func canaryDeploymentFor(release *v1beta1.BatchRelease, stable *apps.Deployment) *apps.Deployment {
	owner, _ := json.Marshal(metav1.NewControllerRef(release, release.GroupVersionKind()))
	c := &apps.Deployment{
		TypeMeta: metav1.TypeMeta{APIVersion: "apps/v1", Kind: "Deployment"},
		ObjectMeta: metav1.ObjectMeta{Name: wname + "-canary", Namespace: ns, UID: "uid-canary", Generation: 1,
			Labels:            map[string]string{util.CanaryDeploymentLabel: stable.Name},
			Annotations:       map[string]string{util.BatchReleaseControlAnnotation: string(owner)},
			Finalizers:        []string{util.CanaryDeploymentFinalizer},
			OwnerReferences:   []metav1.OwnerReference{*metav1.NewControllerRef(release, release.GroupVersionKind())},
			CreationTimestamp: metav1.Unix(2000, 0)},
		Spec: *stable.Spec.DeepCopy(),
	}
	c.Spec.Replicas = pointer.Int32(0)
	c.Spec.Paused = false
	c.Status.ObservedGeneration = 1
	return c
}

// env is one workload under one control plane on its own fake API server.
type env struct {
	k    Kind
	n    int32
	cli  client.Client
	pods bool // model readiness with real Pod objects where the control plane counts them
	// the knob-carrying object (the workload; the canary Deployment for canary style) as it was
	// right after Initialize, and the resourceVersion the harness last saw it with
	initial client.Object
	rv      string
	updated int // updated pods of the (fully complied) workload so far
	// knob as last seen by observe (a printable form of the update setting), for reporting
	lastKnob, initialKnob string
	rec                   record.EventRecorder
}

type discardRecorder struct{}

func (discardRecorder) Event(runtime.Object, string, string, string)                  {}
func (discardRecorder) Eventf(runtime.Object, string, string, string, ...interface{}) {}
func (discardRecorder) AnnotatedEventf(runtime.Object, map[string]string, string, string, string, ...interface{}) {
}

func must(err error, what string) {
	if err != nil {
		panic(fmt.Sprintf("harness: %s: %v", what, err))
	}
}

func (e *env) knobName() string {
	if e.k == CanaryDeployment {
		return wname + "-canary"
	}
	return wname
}

func (e *env) emptyKnobObject() client.Object {
	switch e.k {
	case PartCloneSet, BGCloneSet:
		return &kruisev1alpha1.CloneSet{}
	case PartStatefulSet:
		return &apps.StatefulSet{}
	case PartAdvancedStatefulSet:
		return &kruisev1beta1.StatefulSet{}
	case PartDaemonSet:
		return &kruisev1alpha1.DaemonSet{}
	}
	return &apps.Deployment{}
}

// newEnv creates the workload and lets the REAL control plane claim it (Initialize).
func newEnv(k Kind, n int32, pods bool) *env {
	e := &env{k: k, n: n, pods: pods, rec: discardRecorder{}}
	release := newRelease(k, []Val{{Pct: true, V: 100}})
	objs := newWorkload(k, n)
	if k == CanaryDeployment {
		objs = append(objs, canaryDeploymentFor(release, objs[0].(*apps.Deployment)))
	}
	e.cli = fake.NewClientBuilder().WithScheme(scheme).WithObjects(objs...).Build()
	switch k {
	case CanaryDeployment:
		c := canarydeployment.NewController(e.cli, wkey)
		st, err := c.BuildStableController()
		must(err, "BuildStableController")
		must(st.Initialize(release), "stable Initialize")
	case BGCloneSet, BGDeployment:
		c, err := e.bgController().BuildController()
		must(err, "BuildController")
		must(c.Initialize(release), "Initialize")
	default:
		c, err := e.partController().BuildController()
		must(err, "BuildController")
		must(c.Initialize(release), "Initialize")
	}
	e.observe()
	e.initialKnob = e.lastKnob
	// remember the claimed state so that reset() can return to it
	e.initial = e.emptyKnobObject()
	e.get(e.initial, e.knobName())
	e.rv = e.initial.GetResourceVersion()
	return e
}

// reset puts the knob-carrying object back to its state right after Initialize (a new release,
// nothing updated yet). All other objects are never written after Initialize, except Pods and the
// new ReplicaSet, which the next observe brings in line.
func (e *env) reset() {
	w := e.initial.DeepCopyObject().(client.Object)
	w.SetResourceVersion(e.rv)
	if err := e.cli.Update(context.TODO(), w); err != nil {
		cur := e.emptyKnobObject()
		e.get(cur, e.knobName())
		w = e.initial.DeepCopyObject().(client.Object)
		w.SetResourceVersion(cur.GetResourceVersion())
		must(e.cli.Update(context.TODO(), w), "reset update")
	}
	e.rv = w.GetResourceVersion()
	e.updated = 0
	e.lastKnob = e.initialKnob
	if e.k.readinessCountsPods() {
		e.syncPods(e.podOwner())
	}
}

func (e *env) podOwner() metav1.OwnerReference {
	gvk := e.k.gvk()
	return metav1.OwnerReference{APIVersion: gvk.GroupVersion().String(), Kind: gvk.Kind, Name: wname, UID: wUID, Controller: pointer.Bool(true)}
}

func (e *env) partController() partitionstyle.Interface {
	switch e.k {
	case PartCloneSet:
		return partcloneset.NewController(e.cli, wkey, e.k.gvk())
	case PartStatefulSet, PartAdvancedStatefulSet:
		return partstatefulset.NewController(e.cli, wkey, e.k.gvk())
	case PartDaemonSet:
		return partdaemonset.NewController(e.cli, wkey, e.k.gvk())
	case PartDeployment:
		return partdeployment.NewController(e.cli, wkey, e.k.gvk())
	}
	panic("harness: not a partition-style kind")
}

func (e *env) bgController() bluegreenstyle.Interface {
	if e.k == BGCloneSet {
		return bgcloneset.NewController(e.cli, wkey, e.k.gvk())
	}
	return bgdeployment.NewController(e.cli, wkey, e.k.gvk())
}

// calc builds a fresh REAL controller from the API state and returns its batch context plus the
// function that performs the REAL UpgradeBatch with that context.
func (e *env) calc(release *v1beta1.BatchRelease) (*batchcontext.BatchContext, func(*batchcontext.BatchContext) error, error) {
	switch e.k {
	case CanaryDeployment:
		c := canarydeployment.NewController(e.cli, wkey)
		if _, err := c.BuildStableController(); err != nil {
			return nil, nil, err
		}
		cc, err := c.BuildCanaryController(release)
		if err != nil {
			return nil, nil, err
		}
		ctx, err := c.CalculateBatchContext(release)
		return ctx, cc.UpgradeBatch, err
	case BGCloneSet, BGDeployment:
		c, err := e.bgController().BuildController()
		if err != nil {
			return nil, nil, err
		}
		ctx, err := c.CalculateBatchContext(release)
		return ctx, c.UpgradeBatch, err
	default:
		c, err := e.partController().BuildController()
		if err != nil {
			return nil, nil, err
		}
		ctx, err := c.CalculateBatchContext(release)
		return ctx, c.UpgradeBatch, err
	}
}

// controlPlane returns the REAL control plane object (the thing the BatchRelease executor calls).
type controlPlane interface {
	UpgradeBatch() error
	EnsureBatchPodsReadyAndLabeled() error
}

func (e *env) controlPlane(release *v1beta1.BatchRelease) controlPlane {
	st := release.Status.DeepCopy()
	switch e.k {
	case CanaryDeployment:
		return canarystyle.NewControlPlane(canarydeployment.NewController, e.cli, e.rec, release, st, wkey)
	case BGCloneSet:
		return bluegreenstyle.NewControlPlane(bgcloneset.NewController, e.cli, e.rec, release, st, wkey, e.k.gvk())
	case BGDeployment:
		return bluegreenstyle.NewControlPlane(bgdeployment.NewController, e.cli, e.rec, release, st, wkey, e.k.gvk())
	case PartCloneSet:
		return partitionstyle.NewControlPlane(partcloneset.NewController, e.cli, e.rec, release, st, wkey, e.k.gvk())
	case PartStatefulSet, PartAdvancedStatefulSet:
		return partitionstyle.NewControlPlane(partstatefulset.NewController, e.cli, e.rec, release, st, wkey, e.k.gvk())
	case PartDaemonSet:
		return partitionstyle.NewControlPlane(partdaemonset.NewController, e.cli, e.rec, release, st, wkey, e.k.gvk())
	default:
		return partitionstyle.NewControlPlane(partdeployment.NewController, e.cli, e.rec, release, st, wkey, e.k.gvk())
	}
}

func (e *env) get(o client.Object, name string) {
	must(e.cli.Get(context.TODO(), types.NamespacedName{Namespace: ns, Name: name}, o), "get "+name)
}

// knob reads the update setting back from the API object and restores, by the knob's own
// semantics, how many pods a fully complying workload controller runs on the new revision.
func (e *env) knob() (string, int) {
	o := e.emptyKnobObject()
	e.get(o, e.knobName())
	return e.knobOf(o)
}

func (e *env) knobOf(obj client.Object) (string, int) {
	n := int(e.n)
	switch e.k {
	case PartCloneSet:
		o := obj.(*kruisev1alpha1.CloneSet)
		if o.Spec.UpdateStrategy.Paused {
			return "paused", 0
		}
		if o.Spec.UpdateStrategy.Partition == nil {
			return "partition=nil", n
		}
		p := *o.Spec.UpdateStrategy.Partition
		return "partition=" + p.String(), n - kruisePartitionStable(p, n)
	case BGCloneSet:
		// blue-green: partition removed, maxUnavailable 0, pods never become available
		// (minReadySeconds), so exactly min(maxSurge rounded up, n) new pods are surged.
		o := obj.(*kruisev1alpha1.CloneSet)
		us := o.Spec.UpdateStrategy
		if us.Paused {
			return "paused", 0
		}
		if us.Partition != nil && kruisePartitionStable(*us.Partition, n) >= n {
			return "partition=" + us.Partition.String(), 0
		}
		if us.MaxSurge == nil {
			return "maxSurge=nil", 0
		}
		return "maxSurge=" + us.MaxSurge.String(), clamp(scaledUp(*us.MaxSurge, n), 0, n)
	case PartStatefulSet, PartAdvancedStatefulSet:
		// ordered update: pods with ordinal >= partition run the new revision
		p := int(util.GetStatefulSetPartition(obj))
		return fmt.Sprintf("partition=%d", p), clamp(n-p, 0, n)
	case PartDaemonSet:
		o := obj.(*kruisev1alpha1.DaemonSet)
		ru := o.Spec.UpdateStrategy.RollingUpdate
		if ru == nil || ru.Partition == nil {
			return "partition=nil", n
		}
		return fmt.Sprintf("partition=%d", *ru.Partition), clamp(n-int(*ru.Partition), 0, n)
	case PartDeployment:
		// the Advanced Deployment controller of this repository scales the new ReplicaSet up to the
		// partition (an int-or-percent NUMBER OF NEW PODS, percentage rounded up); for a percentage
		// below 100% it keeps one old pod (n > 1).
		o := obj.(*apps.Deployment)
		st := util.GetDeploymentStrategy(o)
		u := clamp(scaledUp(st.Partition, n), 0, n)
		if n > 1 && st.Partition.Type == intstr.String && st.Partition.StrVal != "100%" {
			u = clamp(u, 0, n-1)
		}
		if st.Paused {
			return "paused", 0
		}
		return "partition=" + st.Partition.String(), u
	case CanaryDeployment:
		o := obj.(*apps.Deployment)
		return fmt.Sprintf("canaryReplicas=%d", *o.Spec.Replicas), int(*o.Spec.Replicas)
	case BGDeployment:
		// native rolling update with maxUnavailable 0 and pods that never become available: the new
		// ReplicaSet grows to min(maxSurge rounded up, n).
		o := obj.(*apps.Deployment)
		if o.Spec.Paused {
			return "paused", 0
		}
		ru := o.Spec.Strategy.RollingUpdate
		if ru == nil || ru.MaxSurge == nil {
			return "maxSurge=nil", 0
		}
		return "maxSurge=" + ru.MaxSurge.String(), clamp(scaledUp(*ru.MaxSurge, n), 0, n)
	}
	panic("harness: unknown kind")
}

func readyPod(name string, rev string, owner metav1.OwnerReference) *corev1.Pod {
	return &corev1.Pod{
		ObjectMeta: metav1.ObjectMeta{Name: name, Namespace: ns, UID: types.UID("uid-" + name),
			Labels:          map[string]string{"app": "demo", apps.ControllerRevisionHashLabelKey: rev},
			OwnerReferences: []metav1.OwnerReference{owner}},
		Spec:   corev1.PodSpec{Containers: []corev1.Container{{Name: "main", Image: "demo"}}},
		Status: corev1.PodStatus{Phase: corev1.PodRunning, Conditions: []corev1.PodCondition{{Type: corev1.PodReady, Status: corev1.ConditionTrue}}},
	}
}

// observe writes the status of a workload whose controller has fully complied with the current
// knob and whose pods are all ready (workloads never move pods back to the old revision by
// themselves, hence the running maximum).
func (e *env) observe() {
	obj := e.emptyKnobObject()
	e.get(obj, e.knobName())
	ks, u := e.knobOf(obj)
	e.lastKnob = ks
	if u > e.updated {
		e.updated = u
	}
	up := int32(e.updated)
	ctx := context.TODO()
	switch o := obj.(type) {
	case *kruisev1alpha1.CloneSet:
		o.Status.ObservedGeneration = o.Generation
		o.Status.UpdatedReplicas, o.Status.UpdatedReadyReplicas = up, up
		o.Status.Replicas, o.Status.ReadyReplicas, o.Status.AvailableReplicas = e.n, e.n, e.n
		if e.k == BGCloneSet {
			o.Status.Replicas, o.Status.ReadyReplicas, o.Status.AvailableReplicas = e.n+up, e.n+up, e.n
		}
	case *apps.StatefulSet:
		o.Status.ObservedGeneration = o.Generation
		o.Status.UpdatedReplicas = up
	case *kruisev1beta1.StatefulSet:
		o.Status.ObservedGeneration = o.Generation
		o.Status.UpdatedReplicas = up
	case *kruisev1alpha1.DaemonSet:
		o.Status.ObservedGeneration = o.Generation
		o.Status.UpdatedNumberScheduled = up
	case *apps.Deployment:
		o.Status.ObservedGeneration = o.Generation
		switch e.k {
		case PartDeployment:
			o.Status.UpdatedReplicas = up
			extra, _ := json.Marshal(v1alpha1.DeploymentExtraStatus{UpdatedReadyReplicas: up, ExpectedUpdatedReplicas: up})
			if o.Annotations == nil {
				o.Annotations = map[string]string{}
			}
			o.Annotations[v1alpha1.DeploymentExtraStatusAnnotation] = string(extra)
		case CanaryDeployment:
			o.Status.Replicas, o.Status.UpdatedReplicas, o.Status.ReadyReplicas, o.Status.AvailableReplicas = up, up, up, up
		case BGDeployment:
			o.Status.UpdatedReplicas = up
			o.Status.Replicas, o.Status.ReadyReplicas = e.n+up, e.n+up
		}
	}
	must(e.cli.Update(ctx, obj), "status update")
	e.rv = obj.GetResourceVersion()
	if e.k.readinessCountsPods() {
		e.syncPods(e.podOwner())
	}
	if e.k == BGDeployment {
		// the Deployment controller's new ReplicaSet: created once the Deployment is not paused; its
		// pods are ready (never available: minReadySeconds)
		d := obj.(*apps.Deployment)
		rs := &apps.ReplicaSet{}
		err := e.cli.Get(ctx, types.NamespacedName{Namespace: ns, Name: wname + "-new"}, rs)
		switch {
		case err == nil:
			if rs.Status.ReadyReplicas != up {
				rs.Spec.Replicas = pointer.Int32(up)
				rs.Status.Replicas, rs.Status.ReadyReplicas = up, up
				must(e.cli.Update(ctx, rs), "update new rs")
			}
		case !d.Spec.Paused:
			tpl := *d.Spec.Template.DeepCopy()
			tpl.Labels[apps.DefaultDeploymentUniqueLabelKey] = "new"
			rs = &apps.ReplicaSet{
				TypeMeta: metav1.TypeMeta{APIVersion: "apps/v1", Kind: "ReplicaSet"},
				ObjectMeta: metav1.ObjectMeta{Name: wname + "-new", Namespace: ns, UID: "uid-rs-new", Labels: tpl.Labels,
					CreationTimestamp: metav1.Unix(3000, 0),
					OwnerReferences:   []metav1.OwnerReference{*metav1.NewControllerRef(d, util.ControllerKindDep)}},
				Spec:   apps.ReplicaSetSpec{Replicas: pointer.Int32(up), Selector: selector(), Template: tpl, MinReadySeconds: d.Spec.MinReadySeconds},
				Status: apps.ReplicaSetStatus{Replicas: up, ReadyReplicas: up, ObservedGeneration: 1},
			}
			must(e.cli.Create(ctx, rs), "create new rs")
		}
	}
}

// syncPods (only with e.pods) keeps n ready Pod objects of which e.updated carry the new revision:
// native/Advanced StatefulSet and Advanced DaemonSet have no updatedReadyReplicas status field and
// their control planes count ready new-revision pods.
func (e *env) syncPods(owner metav1.OwnerReference) {
	if !e.pods {
		return
	}
	ctx := context.TODO()
	for i := 0; i < int(e.n); i++ {
		name := fmt.Sprintf("%s-%d", wname, i)
		// ordered StatefulSet update proceeds from the highest ordinal downwards
		rev := oldRev
		if i >= int(e.n)-e.updated {
			rev = newRev
		}
		p := &corev1.Pod{}
		if err := e.cli.Get(ctx, types.NamespacedName{Namespace: ns, Name: name}, p); err != nil {
			must(e.cli.Create(ctx, readyPod(name, rev, owner)), "create pod")
			continue
		}
		if p.Labels[apps.ControllerRevisionHashLabelKey] != rev {
			p.Labels[apps.ControllerRevisionHashLabelKey] = rev
			must(e.cli.Update(ctx, p), "update pod")
		}
	}
}

// readinessCountsPods: control planes whose UpdatedReadyReplicas comes from counting Pod objects.
func (k Kind) readinessCountsPods() bool {
	return k == PartStatefulSet || k == PartAdvancedStatefulSet || k == PartDaemonSet
}
