# Contribution of package parith (exhaustive arithmetic, engine E3) to CHECKS["C01"] (part a) and
# CHECKS["C07"] (part c). Merge the sub-checks / assumptions / text below into the two entries.
# All three sub-checks live in /verif/harness/parith (Go package parith).
{
    "C01": {
        "level": "exploration",   # the arithmetic part (this sub-check) is exhaustive: stats carry exhaustive=true
        "engine": "E3",
        "technique": "exhaustive enumeration of the bounded arithmetic domain against a reference written from the property statement",
        "level_text": ("Arithmetic part: every replicas n in 0..400 (thorough 0..1200) x every percentage 0..100 x every integer 0..n+2 "
                       "is evaluated through the real control.CalculateBatchReplicas, control.ParseIntegerAsPercentageIfPossible, "
                       "deploymentutil.NewRSReplicasLimit and the real partition-style CloneSet CalculateBatchContext; additionally every "
                       "old-revision remainder 0..n is put through ParseIntegerAsPercentageIfPossible (the rollback-in-batches domain). "
                       "Inside these bounds the upper-bound claim is established for the listed functions, not sampled."),
        "level_note": ("Trusted: the 6-line reference (planned = ceil(p*n/100) clamped to [0,n], min(k,n) for integers; slack = ceil(n/100)) "
                       "and the CloneSet rule that turns a partition into the number of old pods (rounded up). CalculateBatchReplicas is "
                       "compared for equality with the reference (it is documented as 'the planned updated replicas of the batch'); a value "
                       "above the reference violates C01, a value below it is reported under its own signature."),
        "rule": ("for n, value in the domain: CalculateBatchReplicas == planned; NewRSReplicasLimit in [0, planned]; for percentage plans the "
                 "partition returned by ParseIntegerAsPercentageIfPossible(n-planned, n) and the DesiredPartition of the real CloneSet batch "
                 "context restore to updated <= planned + ceil(n/100); for integer plans the DesiredPartition restores to exactly planned; for "
                 "every remainder s in 0..n: s - restored(Parse(s, n)) <= ceil(n/100). Non-trivial: n > 1 and 0 < planned < n (resp. 0 < s < n). "
                 "Sharded over n (n = shard mod nshards)."),
        "assumptions": [
            "CloneSet partition percentages are rounded UP by Kruise when computing the pods kept on the old revision (util.CalculatePartitionReplicas: roundUp=true; if the result equals n although the percentage is below 100% and n > 1 one pod is released; clamped to [0,n]). This is the rounding /repo itself assumes: ParseIntegerAsPercentageIfPossible and partitionstyle/cloneset UpgradeBatch both call GetScaledValueFromIntOrPercent(.., true).",
            "Replicas bound 400 (quick) / 1200 (thorough); plan values percent 0..100 and int 0..n+2 (the BatchRelease CRD has no validating webhook, so 0, '0%' and integers above n are admitted; the Rollout webhook admits any positive integer and 1%..100%).",
        ],
        "subchecks": [
            {"name": "c01-arith", "pkg": "parith", "test": "TestC01Arith", "mode": "plain",
             "quick": rp(1, 4, timeout=300), "thorough": rp(1, 16, timeout=900)},
        ],
    },
    "C07": {
        "level": "exploration",   # c07-arith is exhaustive inside its bounds (exhaustive=true); c07-arith-controlplanes is sampled
        "engine": "E3",
        "technique": "exhaustive enumeration (single-batch plans x 7 control planes) plus rapid-sampled multi-batch plans through the control-plane entry points; oracle: the controller's own readiness criterion",
        "level_text": ("Arithmetic part of the last sentence of C07: for every n in 1..400 (thorough 1..1200), every percentage 0..100 and "
                       "integer 0..n+2, and each of the control planes partition CloneSet / StatefulSet / DaemonSet / Deployment, canary "
                       "Deployment, blue-green CloneSet / Deployment, a synthetic workload is claimed by the real Initialize on a "
                       "controller-runtime fake client, the real CalculateBatchContext + UpgradeBatch run, the written knob is read back from "
                       "the API object, a fully complying and fully ready workload status is written, and the real CalculateBatchContext + "
                       "BatchContext.IsBatchReady must answer Ready. Multi-batch plans (1..3 batches, mixed units, non-monotone) and the "
                       "control-plane level calls (realBatchControlPlane.UpgradeBatch / EnsureBatchPodsReadyAndLabeled, real Pods for "
                       "StatefulSet/DaemonSet, Advanced StatefulSet) are rapid-sampled. Outside the three listed findings' input classes "
                       "no violation exists inside the exhaustive bounds."),
        "level_note": ("Trusted: the harness's knob semantics (how many updated pods a fully complying workload controller runs for a given "
                       "partition / canary replicas / maxSurge) and its model of 'fully ready' status. In the exhaustive sub-check the "
                       "StatefulSet and DaemonSet control planes (which count ready Pod objects) get UpdatedReadyReplicas := UpdatedReplicas "
                       "on the readiness context instead of n Pod objects; the sampled sub-check uses real Pod objects (n <= 24). "
                       "rollout-id is empty (pod batch labels are C12's subject). The DESIGN mutant '2%' fallback is masked while finding "
                       "c07-cloneset-partition-1pct-fallback-below-desired is open: the fallback is only reachable inside that finding's class."),
        "rule": ("case = (control plane, n, plan of 1..3 int-or-percent batches); for each batch in order: real CalculateBatchContext -> real "
                 "UpgradeBatch -> read knob back -> updated := max(updated, restore(knob, n)) -> write complied+ready status -> real "
                 "CalculateBatchContext -> IsBatchReady() == nil and updated >= DesiredUpdatedReplicas and DesiredUpdatedReplicas equal in "
                 "both contexts. Non-trivial: n > 1 and some batch with 0 < planned < n. Exhaustive sub-check sharded over n."),
        "assumptions": [
            "Knob semantics: CloneSet partition -> old pods = percentage rounded up (Kruise CalculatePartitionReplicas); StatefulSet (ordered) and Advanced DaemonSet partition p -> n-p updated; partition-style Deployment: strategy-annotation partition = number of new pods, percentage rounded up, below 100% at most n-1 (n>1) - written independently of deploymentutil.NewRSReplicasLimit; canary Deployment: spec.replicas; blue-green CloneSet/Deployment (maxUnavailable 0, pods never available): min(maxSurge rounded up, n) new pods, 0 while paused / partition 100%.",
            "A workload never moves pods back to the old revision by itself (running maximum of the restored count across batches).",
            "Workload objects are built as the API server holds them after the Rollout workload webhook (paused / partition 100%) and are claimed by the REAL Initialize of each control plane; the canary Deployment is built by the harness exactly as realCanaryController.create does (the fake client has no generateName).",
            "failureThreshold nil, no rollback-in-batches (NoNeedUpdateReplicas nil), rollout-id empty.",
            "Plan values: percent 0..100, int 0..n+2 (BatchRelease CRD admits them; Rollout webhook admits positive ints of any size and 1%..100%, mixed units across steps).",
        ],
        "subchecks": [
            {"name": "c07-arith", "pkg": "parith", "test": "TestC07Arith", "mode": "plain",
             "quick": rp(1, 16, timeout=900), "thorough": rp(1, 16, timeout=2400)},
            {"name": "c07-arith-controlplanes", "pkg": "parith", "test": "TestC07ArithControlPlanes", "mode": "rapid",
             "quick": rp(16000, 8, timeout=600), "thorough": rp(400000, 16, timeout=1800)},
        ],
    },
    # entries for /verif/known_findings.json "findings" (replays: /verif/harness/parith/findings/<sig>.json)
    "KNOWN_FINDINGS": [
        {"property": "C07", "sig": "c07-cloneset-partition-1pct-fallback-below-desired", "check": "c07-arith",
         "replay": "harness/parith/findings/c07-cloneset-partition-1pct-fallback-below-desired.json",
         "summary": "partition-style CloneSet, plan '99%', n > 100 and n % 100 != 0 (minimal n=101): ParseIntegerAsPercentageIfPossible falls back to partition '1%' = ceil(n/100) old pods > the 1..(n/100) planned, so updated < DesiredUpdatedReplicas and the batch never becomes Ready",
         "proposed_fix": "/tmp/agent-arith/proposed-fix-c07-cloneset-partition-1pct-fallback-below-desired.diff"},
        {"property": "C07", "sig": "c07-bluegreen-cloneset-int-plan-above-replicas", "check": "c07-arith",
         "replay": "harness/parith/findings/c07-bluegreen-cloneset-int-plan-above-replicas.json",
         "summary": "blue-green CloneSet, integer step k > replicas n (minimal n=1, k=2): DesiredUpdatedReplicas = k is not clamped to n, a CloneSet never runs more than n updated pods, the batch never becomes Ready",
         "proposed_fix": "/tmp/agent-arith/proposed-fix-c07-bluegreen-cloneset-int-plan-above-replicas.diff"},
        {"property": "C07", "sig": "c07-partition-deployment-mixed-int-percent-not-raised", "check": "c07-arith-controlplanes",
         "replay": "harness/parith/findings/c07-partition-deployment-mixed-int-percent-not-raised.json",
         "summary": "partition-style Deployment, percentage batch followed by an integer batch (minimal n=2, plan ['1%', 2]): IsCurrentMoreThanOrEqualToDesired compares '1%' (100000 of 10000000) with 2, UpgradeBatch leaves the partition at '1%', updated < DesiredUpdatedReplicas forever",
         "proposed_fix": "/tmp/agent-arith/proposed-fix-c07-partition-deployment-mixed-int-percent-not-raised.diff"},
    ],
}
