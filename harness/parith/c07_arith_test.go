package parith

import (
	"fmt"
	"os"
	"strings"
	"testing"

	"pgregory.net/rapid"

	"verifharness/vlib"
)

const (
	chkC07   = "c07-arith"
	chkC07CP = "c07-arith-controlplanes"
)

// C07Case is one release of a workload of N replicas under one control plane: the batches of the
// plan are upgraded one after the other, each time the workload fully complies and is fully ready.
type C07Case struct {
	Kind string `json:"kind"`
	N    int    `json:"n"`
	Plan []Val  `json:"plan"`
	// ControlPlane: drive realBatchControlPlane.UpgradeBatch / EnsureBatchPodsReadyAndLabeled (the
	// calls of the BatchRelease executor) instead of the controller-level functions.
	ControlPlane bool `json:"controlPlane,omitempty"`
	// Pods: readiness of StatefulSet / DaemonSet pods is modelled with real Pod objects (otherwise
	// UpdatedReadyReplicas of the readiness context is set to its UpdatedReplicas).
	Pods bool `json:"pods,omitempty"`
}

// knownClass returns the signature of the listed finding whose input class batch b of the case
// falls into ("" if none).
func knownClass(k Kind, n int, plan []Val, b int) string {
	v := plan[b]
	switch k {
	case PartCloneSet:
		if onePercentFallbackClass(v, n) {
			return sigOnePercentFallback
		}
	case BGCloneSet:
		if !v.Pct && v.V > n {
			return sigBGCloneSetIntAboveReplicas
		}
	case PartDeployment:
		if mixedUnitsClass(n, plan, b) {
			return sigDeploymentMixedUnits
		}
	}
	return ""
}

// mixedUnitsClass: partition-style Deployment, batch b wants more new pods than any earlier batch
// obtained, and the partition currently stored (written by the latest earlier batch that raised it)
// is of the other unit and compares as "already >= desired" under the 10000000-scale comparison of
// control.IsCurrentMoreThanOrEqualToDesired.
func mixedUnitsClass(n int, plan []Val, b int) bool {
	if b == 0 {
		return false
	}
	scale := func(v Val) int {
		if v.Pct {
			return ceilDiv(v.V*10000000, 100)
		}
		return v.V
	}
	cur := Val{V: 0} // Initialize writes partition 0
	for i := 0; i < b; i++ {
		if scale(cur) < scale(plan[i]) {
			cur = plan[i]
		}
	}
	if cur.Pct == plan[b].Pct {
		return false
	}
	return scale(cur) >= scale(plan[b]) && deploymentUpdated(cur, n) < deploymentUpdated(plan[b], n)
}

// deploymentUpdated: new pods of an Advanced Deployment for partition v (see env.knob).
func deploymentUpdated(v Val, n int) int {
	u := refPlanned(v, n)
	if v.Pct && v.V != 100 && n > 1 {
		u = clamp(u, 0, n-1)
	}
	return u
}

func slug(k Kind) string { return strings.ToLower(strings.ReplaceAll(k.String(), "/", "-")) }

// c07Run executes the case on env e (already reset). It fails the test when a batch of a fully
// complying, fully ready workload is not judged Ready by the REAL BatchContext.IsBatchReady.
func c07Run(t vlib.TB, chk string, e *env, c C07Case) (wrote int) {
	k := e.k
	rel := newRelease(k, c.Plan)
	for b := range c.Plan {
		rel.Status.CanaryStatus.CurrentBatch = int32(b)
		sig := knownClass(k, c.N, c.Plan, b)
		if sig == "" {
			sig = "c07-target-below-readiness-" + slug(k)
		}
		before := e.lastKnob
		var desired int32 = -1
		if c.ControlPlane {
			if err := e.controlPlane(rel).UpgradeBatch(); err != nil {
				vlib.Fail(t, chk, "c07-upgrade-batch-error-"+slug(k), c, "batch %d: control plane UpgradeBatch: %v", b, err)
			}
		} else {
			ctx, upgrade, err := e.calc(rel)
			if err != nil {
				vlib.Fail(t, chk, "c07-batch-context-error-"+slug(k), c, "batch %d: CalculateBatchContext: %v", b, err)
			}
			if err := upgrade(ctx); err != nil {
				vlib.Fail(t, chk, "c07-upgrade-batch-error-"+slug(k), c, "batch %d: UpgradeBatch: %v", b, err)
			}
			desired = ctx.DesiredUpdatedReplicas
		}
		e.observe() // the workload controller complies completely, every pod is ready
		after := e.lastKnob
		if after != before {
			wrote++
		}

		if c.ControlPlane {
			if err := e.controlPlane(rel).EnsureBatchPodsReadyAndLabeled(); err != nil {
				vlib.Fail(t, chk, sig, c, "%s, %d replicas, plan %v, batch %d: the control plane wrote %s (before: %s); a workload that fully "+
					"complies runs %d updated, ready pods, yet EnsureBatchPodsReadyAndLabeled says: %v", k, c.N, c.Plan, b, after, before, e.updated, err)
			}
			continue
		}
		ctx2, _, err := e.calc(rel)
		if err != nil {
			vlib.Fail(t, chk, "c07-batch-context-error-"+slug(k), c, "batch %d: CalculateBatchContext (readiness): %v", b, err)
		}
		if k.readinessCountsPods() && !e.pods {
			ctx2.UpdatedReadyReplicas = ctx2.UpdatedReplicas
		}
		if ctx2.DesiredUpdatedReplicas != desired {
			vlib.Fail(t, chk, "c07-desired-differs-between-upgrade-and-check-"+slug(k), c, "batch %d: DesiredUpdatedReplicas %d when upgrading, %d when checking readiness", b, desired, ctx2.DesiredUpdatedReplicas)
		}
		if int(ctx2.UpdatedReplicas) != e.updated {
			panic(fmt.Sprintf("harness: %s context reports %d updated replicas, status was written with %d", k, ctx2.UpdatedReplicas, e.updated))
		}
		if rerr := ctx2.IsBatchReady(); rerr != nil || e.updated < int(desired) {
			vlib.Fail(t, chk, sig, c, "%s, %d replicas, plan %v, batch %d: UpgradeBatch wrote %s (before: %s); a workload that fully complies "+
				"runs %d updated, ready pods, but the same batch context wants DesiredUpdatedReplicas %d; IsBatchReady: %v",
				k, c.N, c.Plan, b, after, before, e.updated, desired, rerr)
		}
	}
	return wrote
}

// envCache keeps one claimed workload per (kind, n, pods) for the lifetime of the process.
type envCache struct {
	m map[string]*env
}

func (ec *envCache) get(k Kind, n int, pods bool) *env {
	if ec.m == nil {
		ec.m = map[string]*env{}
	}
	key := fmt.Sprintf("%d/%d/%v", k, n, pods)
	e := ec.m[key]
	if e == nil {
		if len(ec.m) > 64 {
			ec.m = map[string]*env{}
		}
		e = newEnv(k, int32(n), pods)
		ec.m[key] = e
	} else {
		e.reset()
	}
	return e
}

func replayC07(t *testing.T, chk string) bool {
	var rc C07Case
	ok, _ := vlib.LoadReplay(chk, &rc)
	if !ok {
		// a replay file of another sub-check: nothing to do here
		return os.Getenv("VERIF_REPLAY") != ""
	}
	e := newEnv(kindByName(rc.Kind), int32(rc.N), rc.Pods)
	c07Run(t, chk, e, rc)
	return true
}

// exhaustiveKinds: the control planes of the exhaustive enumeration. Native and Advanced
// StatefulSet are served by one implementation (partitionstyle/statefulset) that differs only in
// the object type it reads; the Advanced one is covered by the sampled sub-check.
var exhaustiveKinds = []Kind{PartCloneSet, PartStatefulSet, PartDaemonSet, PartDeployment, CanaryDeployment, BGCloneSet, BGDeployment}

// TestC07Arith: exhaustive over (n, single plan value) x every control plane, controller level.
func TestC07Arith(t *testing.T) {
	if replayC07(t, chkC07) {
		return
	}
	N := arithN()
	sh, nsh := shard()
	var evals, nt int64
	var samples []any
	point := func(envs []*env, n int, v Val) {
		planned := refPlanned(v, n)
		for _, k := range exhaustiveKinds {
			plan := []Val{v}
			if sig := knownClass(k, n, plan, 0); sig != "" && excludeKnown(sig) {
				vlib.Excluded(chkC07, sig)
				continue
			}
			evals++
			e := envs[k]
			e.reset()
			c := C07Case{Kind: k.String(), N: n, Plan: plan}
			wrote := c07Run(t, chkC07, e, c)
			if n > 1 && planned > 0 && planned < n {
				nt++
				if len(samples) < 6 && n > 100 && int(k) == len(samples) && (v.V == 37 || v.V == n/2) {
					samples = append(samples, c)
				}
			}
			if wrote > 0 {
				vlib.Class(chkC07, k.String()+" knob-written")
			} else {
				vlib.Class(chkC07, k.String()+" knob-unchanged")
			}
		}
	}
	for n := sh; n <= N; n += nsh {
		if n == 0 {
			// every control plane returns from UpgradeBatch / EnsureBatchPodsReadyAndLabeled before
			// computing a batch context when the workload has no replicas: nothing to evaluate
			continue
		}
		envs := make([]*env, nKinds)
		for _, k := range exhaustiveKinds {
			envs[k] = newEnv(k, int32(n), false)
		}
		for p := 0; p <= 100; p++ {
			point(envs, n, Val{Pct: true, V: p})
		}
		for i := 0; i <= n+2; i++ {
			point(envs, n, Val{V: i})
		}
	}
	vlib.Note(chkC07, fmt.Sprintf("shard %d/%d: replicas n = %d, %d+%d, ... <= %d; per n: percent 0..100 and int 0..n+2, each on %d control planes", sh, nsh, sh, sh, nsh, N, len(exhaustiveKinds)))
	vlib.RecordBulk(chkC07, evals, nt, true, samples)
}

// ---- sampled sub-domain: multi-batch plans through the control-plane entry points ----------------

func genVal(t *rapid.T, n int, label string) Val {
	switch rapid.IntRange(0, 9).Draw(t, label+"-shape") {
	case 0, 1, 2, 3: // any percentage
		return Val{Pct: true, V: rapid.IntRange(0, 100).Draw(t, label+"-pct")}
	case 4: // percentages around the rounding corners
		return Val{Pct: true, V: rapid.SampledFrom([]int{0, 1, 2, 49, 50, 51, 98, 99, 100}).Draw(t, label+"-corner-pct")}
	case 5, 6, 7, 8: // any integer up to n+2
		return Val{V: rapid.IntRange(0, n+2).Draw(t, label+"-int")}
	default: // integers around the ends
		return Val{V: clamp(rapid.SampledFrom([]int{0, 1, 2, n - 2, n - 1, n, n + 1, n + 2}).Draw(t, label+"-corner-int"), 0, n+2)}
	}
}

func genC07CP(t *rapid.T) C07Case {
	k := Kind(rapid.IntRange(0, int(nKinds)-1).Draw(t, "kind"))
	c := C07Case{Kind: k.String()}
	c.ControlPlane = rapid.IntRange(0, 3).Draw(t, "level") > 0
	maxN := 130
	if vlib.Thorough() {
		maxN = 400
	}
	if k.readinessCountsPods() {
		c.Pods = true // these control planes count Pod objects
		maxN = 24
	}
	switch rapid.IntRange(0, 5).Draw(t, "n-shape") {
	case 0:
		c.N = rapid.IntRange(1, 12).Draw(t, "n-small")
	case 1:
		c.N = clamp(rapid.SampledFrom([]int{1, 2, 3, 10, 99, 100, 101, 110, 199, 200, 201}).Draw(t, "n-corner"), 1, maxN)
	default:
		c.N = rapid.IntRange(1, maxN).Draw(t, "n")
	}
	nb := rapid.IntRange(1, 3).Draw(t, "batches")
	for b := 0; b < nb; b++ {
		c.Plan = append(c.Plan, genVal(t, c.N, fmt.Sprintf("b%d", b)))
	}
	// Rollout-made plans never decrease within one unit; BatchRelease objects written by hand may.
	if rapid.IntRange(0, 3).Draw(t, "monotone") > 0 {
		for b := 1; b < nb; b++ {
			for a := 0; a < b; a++ {
				if c.Plan[a].Pct == c.Plan[b].Pct && c.Plan[a].V > c.Plan[b].V {
					c.Plan[a], c.Plan[b] = c.Plan[b], c.Plan[a]
				}
			}
		}
	}
	// steer away from the input classes of listed findings (by construction, counted)
	for b := 0; b < nb; b++ {
		for tries := 0; tries < 4; tries++ {
			sig := knownClass(k, c.N, c.Plan, b)
			if sig == "" || !excludeKnown(sig) {
				break
			}
			vlib.Excluded(chkC07CP, sig)
			switch sig {
			case sigOnePercentFallback:
				c.Plan[b].V = 98
			case sigBGCloneSetIntAboveReplicas:
				c.Plan[b].V = c.N
			case sigDeploymentMixedUnits:
				c.Plan[b].Pct = !c.Plan[b].Pct
				if c.Plan[b].Pct {
					c.Plan[b].V = clamp(c.Plan[b].V, 0, 100)
				}
			}
		}
	}
	return c
}

func TestC07ArithControlPlanes(t *testing.T) {
	if replayC07(t, chkC07CP) {
		return
	}
	cache := &envCache{}
	rapid.Check(t, func(t *rapid.T) {
		c := genC07CP(t)
		k := kindByName(c.Kind)
		for b := range c.Plan {
			if sig := knownClass(k, c.N, c.Plan, b); sig != "" && excludeKnown(sig) {
				// the replacement value fell into a listed class again (cannot happen for the three
				// listed classes; kept so that the exclusion is exact)
				vlib.Excluded(chkC07CP, sig)
				return
			}
		}
		nt, mixed, distinct := false, false, map[int]bool{}
		for b, v := range c.Plan {
			p := refPlanned(v, c.N)
			distinct[p] = true
			if c.N > 1 && p > 0 && p < c.N {
				nt = true
			}
			if b > 0 && v.Pct != c.Plan[0].Pct {
				mixed = true
			}
		}
		classes := []string{c.Kind, fmt.Sprintf("batches=%d", len(c.Plan))}
		if c.ControlPlane {
			classes = append(classes, "level=control-plane")
		} else {
			classes = append(classes, "level=controller")
		}
		if mixed {
			classes = append(classes, "plan mixes int and percent")
		}
		if c.N > 100 {
			classes = append(classes, "replicas>100")
		}
		if len(distinct) > 1 {
			classes = append(classes, "plan has >=2 distinct targets")
		}
		e := cache.get(k, c.N, c.Pods)
		wrote := c07Run(t, chkC07CP, e, c)
		classes = append(classes, fmt.Sprintf("knob-writes=%d", wrote))
		vlib.Record(chkC07CP, fmt.Sprintf("%s/%d/%v/%v", c.Kind, c.N, c.Plan, c.ControlPlane), nt, classes, func() any { return c })
	})
}
