// Package vlib is the small shared runtime of every check: per-case statistics
// (evaluations, distinct non-trivial signatures, class histogram, samples), replay-file
// writing on failure, and replay-file loading. It never draws randomness itself.
package vlib

import (
	"crypto/sha1"
	"encoding/hex"
	"encoding/json"
	"fmt"
	"os"
	"path/filepath"
	"runtime/debug"
	"sort"
	"sync"
	"testing"
)

// TB is the subset of *rapid.T / *testing.T the helpers need.
type TB interface {
	Fatalf(format string, args ...any)
	Logf(format string, args ...any)
}

// Stats accumulates what one test process explored for one sub-check.
type Stats struct {
	Check        string         `json:"check"`
	Evaluations  int64          `json:"evaluations"`
	NonTrivial   int64          `json:"nontrivial"`
	Sigs         []string       `json:"sigs"` // distinct signatures of non-trivial cases (hashed)
	Classes      map[string]int `json:"classes"`
	Samples      []any          `json:"samples"`
	Excluded     map[string]int `json:"excluded_known"`
	Exhaustive   bool           `json:"exhaustive,omitempty"`
	BulkDistinct int64          `json:"bulk_distinct,omitempty"` // distinct non-trivial cases counted by enumerations
	Notes        []string       `json:"notes,omitempty"`
	Failures     []Failure      `json:"failures,omitempty"`

	sigset map[string]struct{}
}

// Failure is one failing case as reported to the driver.
type Failure struct {
	Sig    string `json:"sig"`    // finding signature (matched against known_findings.json)
	Msg    string `json:"msg"`    // human readable
	Replay string `json:"replay"` // path of the replay file
}

var (
	mu     sync.Mutex
	all    = map[string]*Stats{}
	seq    int
	maxSam = 8
)

func get(check string) *Stats {
	s := all[check]
	if s == nil {
		s = &Stats{Check: check, Classes: map[string]int{}, Excluded: map[string]int{}, sigset: map[string]struct{}{}}
		all[check] = s
	}
	return s
}

// OutDir is where stats and replay files go ($VERIF_OUT, default /verif/out/adhoc).
func OutDir() string {
	d := os.Getenv("VERIF_OUT")
	if d == "" {
		d = "/verif/out/adhoc"
	}
	_ = os.MkdirAll(d, 0o755)
	return d
}

// Tier returns "quick" or "thorough" ($VERIF_TIER).
func Tier() string {
	if os.Getenv("VERIF_TIER") == "thorough" {
		return "thorough"
	}
	return "quick"
}

func Thorough() bool { return Tier() == "thorough" }

func hash(s string) string {
	h := sha1.Sum([]byte(s))
	return hex.EncodeToString(h[:8])
}

// Record notes one executed case. sig identifies the case's shape for distinctness; nt is the
// property's non-trivial rule applied to the case; classes feed the histogram; sample (may be
// nil) is kept for the first few non-trivial cases and a few later ones.
func Record(check, sig string, nt bool, classes []string, sample func() any) {
	mu.Lock()
	defer mu.Unlock()
	s := get(check)
	s.Evaluations++
	for _, c := range classes {
		s.Classes[c]++
	}
	if !nt {
		return
	}
	s.NonTrivial++
	h := hash(sig)
	if _, ok := s.sigset[h]; ok {
		return
	}
	s.sigset[h] = struct{}{}
	if sample != nil {
		n := len(s.sigset)
		// keep the first few and then exponentially rarer ones
		if len(s.Samples) < maxSam && (n <= 3 || n&(n-1) == 0) {
			s.Samples = append(s.Samples, sample())
		}
	}
}

// RecordBulk is used by enumerations, which count their distinct non-trivial cases themselves
// (every enumerated point is distinct by construction).
func RecordBulk(check string, evaluations, distinctNT int64, exhaustive bool, samples []any) {
	mu.Lock()
	defer mu.Unlock()
	s := get(check)
	s.Evaluations += evaluations
	s.NonTrivial += distinctNT
	s.BulkDistinct += distinctNT
	s.Exhaustive = exhaustive
	for _, x := range samples {
		if len(s.Samples) < maxSam {
			s.Samples = append(s.Samples, x)
		}
	}
}

// Class bumps a histogram class without counting an evaluation.
func Class(check string, classes ...string) {
	mu.Lock()
	defer mu.Unlock()
	s := get(check)
	for _, c := range classes {
		s.Classes[c]++
	}
}

// Excluded counts a case (or a sub-choice) that the generator steered away from because it
// falls into the input class of a listed known finding.
func Excluded(check, finding string) {
	mu.Lock()
	defer mu.Unlock()
	get(check).Excluded[finding]++
}

func Note(check, note string) {
	mu.Lock()
	defer mu.Unlock()
	s := get(check)
	if len(s.Notes) < 20 {
		s.Notes = append(s.Notes, note)
	}
}

// ReplayFile is the on-disk format of a replay.
type ReplayFile struct {
	Check string          `json:"check"`
	Sig   string          `json:"sig"`
	Msg   string          `json:"msg"`
	Case  json.RawMessage `json:"case"`
}

// Fail writes the executed case as a replay file, records the failure and fails the test.
// rapid re-executes the shrunk case last, so the last file written is the minimal one.
func Fail(t TB, check, sig string, c any, format string, args ...any) {
	msg := fmt.Sprintf(format, args...)
	path := WriteReplay(check, sig, msg, c)
	mu.Lock()
	s := get(check)
	s.Failures = append(s.Failures, Failure{Sig: sig, Msg: msg, Replay: path})
	mu.Unlock()
	if os.Getenv("VERIF_REPLAY") != "" {
		fmt.Printf("REPLAY-FAIL check=%s sig=%s msg=%s\n", check, sig, oneLine(msg))
	}
	t.Fatalf("[%s] %s: %s", check, sig, msg)
}

func oneLine(s string) string {
	b := []byte(s)
	for i, c := range b {
		if c == '\n' || c == '\r' {
			b[i] = ' '
		}
	}
	if len(b) > 600 {
		b = b[:600]
	}
	return string(b)
}

func WriteReplay(check, sig, msg string, c any) string {
	raw, err := json.Marshal(c)
	if err != nil {
		raw, _ = json.Marshal(fmt.Sprintf("unmarshalable case: %v", err))
	}
	mu.Lock()
	seq++
	n := seq
	mu.Unlock()
	rf := ReplayFile{Check: check, Sig: sig, Msg: msg, Case: raw}
	data, _ := json.MarshalIndent(rf, "", " ")
	path := filepath.Join(OutDir(), fmt.Sprintf("replay-%s-%d-%05d.json", check, os.Getpid(), n))
	_ = os.WriteFile(path, data, 0o644)
	return path
}

// LoadReplay reads $VERIF_REPLAY; returns nil when unset or when the file belongs to another
// sub-check.
func LoadReplay(check string, into any) (bool, *ReplayFile) {
	p := os.Getenv("VERIF_REPLAY")
	if p == "" {
		return false, nil
	}
	data, err := os.ReadFile(p)
	if err != nil {
		fmt.Printf("REPLAY-ERROR cannot read %s: %v\n", p, err)
		return false, nil
	}
	var rf ReplayFile
	if err := json.Unmarshal(data, &rf); err != nil {
		fmt.Printf("REPLAY-ERROR cannot parse %s: %v\n", p, err)
		return false, nil
	}
	if rf.Check != check {
		return false, nil
	}
	if err := json.Unmarshal(rf.Case, into); err != nil {
		fmt.Printf("REPLAY-ERROR cannot decode case of %s: %v\n", p, err)
		return false, nil
	}
	return true, &rf
}

// Guard runs f and converts a panic into (true, stack-carrying message).
func Guard(f func()) (panicked bool, msg string) {
	defer func() {
		if r := recover(); r != nil {
			panicked = true
			msg = fmt.Sprintf("panic: %v\n%s", r, debug.Stack())
		}
	}()
	f()
	return
}

// Flush writes all statistics of this process; call it from TestMain after m.Run().
func Flush() {
	mu.Lock()
	defer mu.Unlock()
	names := make([]string, 0, len(all))
	for k := range all {
		names = append(names, k)
	}
	sort.Strings(names)
	out := make([]*Stats, 0, len(names))
	for _, k := range names {
		s := all[k]
		s.Sigs = s.Sigs[:0]
		for h := range s.sigset {
			s.Sigs = append(s.Sigs, h)
		}
		sort.Strings(s.Sigs)
		out = append(out, s)
	}
	data, _ := json.Marshal(out)
	path := filepath.Join(OutDir(), fmt.Sprintf("stats-%d.json", os.Getpid()))
	_ = os.WriteFile(path, data, 0o644)
}

// Main is the TestMain body shared by all check packages.
func Main(m *testing.M) {
	code := m.Run()
	Flush()
	os.Exit(code)
}
