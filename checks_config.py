"""Per-property check configuration for ./check (see DESIGN.md section 4).

Each sub-check: name (the vlib check name used in stats/replay files), pkg (harness package),
test (Go test function), mode (rapid | plain | fuzz), per-tier budgets.
"""

def rp(checks, shards, **kw):
    d = {"checks": checks, "shards": shards}
    d.update(kw)
    return d

CHECKS = {}
NOT_APPLICABLE = {}
HOOK_COMMITS = ["bcb42cf", "8c7469d", "3cd76cc", "65b8d93", "bbffec9", "8af5ee8"]

CHECKS["C20"] = {
    "level": "exploration",
    "engine": "E2",
    "technique": "property-based testing (rapid): round-trip and semantic-projection oracles over generated API objects",
    "level_text": ("Generated-input search: hundreds of thousands of schema-admitted v1alpha1/v1beta1 Rollout and BatchRelease objects per run are "
                   "converted both ways; a panic, an error, a change of the semantic projection (alpha round trip) or any difference (beta round "
                   "trip on the v1alpha1-expressible domain) is a violation, shrunk to a minimal object. Conversion is a pure function of one "
                   "object, so input generation with a round-trip oracle is the fitting level; absence of defects is not established."),
    "level_note": ("Trusted: the harness's semantic projection of a v1alpha1 object (what 'meaning' compares) and the restriction of v1beta1 objects to "
                   "v1alpha1-expressible fields; which blocks the CRD schema lets be absent was read from config/crd/bases."),
    "rule": ("rapid struct generators for v1alpha1 Rollout/BatchRelease (every schema-optional block nil or present, "
             "weight-only/replicas-only/both steps, header matches, pauses, every traffic-routing kind, style annotation in any "
             "letter case / absent / unknown) and for v1beta1 objects (canary restricted to v1alpha1-expressible fields for the "
             "identity oracle; unrestricted canary, blue-green and empty strategy for the no-crash oracle). Oracles: no panic/error; "
             "alpha->beta->alpha equality of a semantic projection; hub carries the same style/steps; beta->alpha->beta identity. "
             "Non-trivial: >=1 step/batch and (alpha) >=1 optional block nil; distinct by hash of spec+annotations."),
    "assumptions": [
        "Which blocks may be absent is taken from config/crd/bases (objectRef.workloadRef, strategy.canary, targetReference.workloadRef optional).",
        "v1beta1 restricted domain: traffic 'N%' with integer N in 0..100, header-only matches, replicas present on every step (required by the v1beta1 validating webhook).",
        "v1alpha1 BatchRelease style is defined by the rolling-style annotation; spec.releasePlan.rollingStyle is generated empty or consistent with it.",
        "DeprecatedRolloutID (spec.rolloutID of v1alpha1 Rollout) has no v1beta1 counterpart and is not asserted.",
    ],
    "subchecks": [
        {"name": "c20-alpha-rollout", "pkg": "p20", "test": "TestC20AlphaRollout", "quick": rp(40000, 8), "thorough": rp(1600000, 16, timeout=1500)},
        {"name": "c20-beta-rollout", "pkg": "p20", "test": "TestC20BetaRollout", "quick": rp(40000, 8), "thorough": rp(1600000, 16, timeout=1500)},
        {"name": "c20-alpha-batchrelease", "pkg": "p20", "test": "TestC20AlphaBatchRelease", "quick": rp(40000, 8), "thorough": rp(800000, 16, timeout=1500)},
        {"name": "c20-beta-batchrelease", "pkg": "p20", "test": "TestC20BetaBatchRelease", "quick": rp(40000, 8), "thorough": rp(800000, 16, timeout=1500)},
    ],
}
