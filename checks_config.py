"""Per-property check configuration for ./check (see DESIGN.md section 4).

Each sub-check: name (the vlib check name used in stats/replay files), pkg (harness package),
test (Go test function), mode (rapid | plain | fuzz), per-tier budgets.
"""

def rp(checks, shards, **kw):
    d = {"checks": checks, "shards": shards}
    d.update(kw)
    return d

CHECKS = {}
NOT_APPLICABLE = {}
HOOK_COMMITS = ["bcb42cf", "8c7469d", "3cd76cc", "65b8d93", "bbffec9", "8af5ee8"]

CHECKS["C20"] = {
    "level": "exploration",
    "engine": "E2",
    "technique": "property-based testing (rapid): round-trip and semantic-projection oracles over generated API objects",
    "level_text": ("Generated-input search: hundreds of thousands of schema-admitted v1alpha1/v1beta1 Rollout and BatchRelease objects per run are "
                   "converted both ways; a panic, an error, a change of the semantic projection (alpha round trip) or any difference (beta round "
                   "trip on the v1alpha1-expressible domain) is a violation, shrunk to a minimal object. Conversion is a pure function of one "
                   "object, so input generation with a round-trip oracle is the fitting level; absence of defects is not established."),
    "level_note": ("Trusted: the harness's semantic projection of a v1alpha1 object (what 'meaning' compares) and the restriction of v1beta1 objects to "
                   "v1alpha1-expressible fields; which blocks the CRD schema lets be absent was read from config/crd/bases."),
    "rule": ("rapid struct generators for v1alpha1 Rollout/BatchRelease (every schema-optional block nil or present, "
             "weight-only/replicas-only/both steps, header matches, pauses, every traffic-routing kind, style annotation in any "
             "letter case / absent / unknown) and for v1beta1 objects (canary restricted to v1alpha1-expressible fields for the "
             "identity oracle; unrestricted canary, blue-green and empty strategy for the no-crash oracle). Oracles: no panic/error; "
             "alpha->beta->alpha equality of a semantic projection; hub carries the same style/steps; beta->alpha->beta identity. "
             "Non-trivial: >=1 step/batch and (alpha) >=1 optional block nil; distinct by hash of spec+annotations."),
    "assumptions": [
        "Which blocks may be absent is taken from config/crd/bases (objectRef.workloadRef, strategy.canary, targetReference.workloadRef optional).",
        "v1beta1 restricted domain: traffic 'N%' with integer N in 0..100, header-only matches, replicas present on every step (required by the v1beta1 validating webhook).",
        "v1alpha1 BatchRelease style is defined by the rolling-style annotation; spec.releasePlan.rollingStyle is generated empty or consistent with it.",
        "DeprecatedRolloutID (spec.rolloutID of v1alpha1 Rollout) has no v1beta1 counterpart and is not asserted.",
    ],
    "subchecks": [
        {"name": "c20-alpha-rollout", "pkg": "p20", "test": "TestC20AlphaRollout", "quick": rp(40000, 8), "thorough": rp(1600000, 16, timeout=1500)},
        {"name": "c20-beta-rollout", "pkg": "p20", "test": "TestC20BetaRollout", "quick": rp(40000, 8), "thorough": rp(1600000, 16, timeout=1500)},
        {"name": "c20-alpha-batchrelease", "pkg": "p20", "test": "TestC20AlphaBatchRelease", "quick": rp(40000, 8), "thorough": rp(800000, 16, timeout=1500)},
        {"name": "c20-beta-batchrelease", "pkg": "p20", "test": "TestC20BetaBatchRelease", "quick": rp(40000, 8), "thorough": rp(800000, 16, timeout=1500)},
    ],
}


# ---------------------------------------------------------------------------------------------
# Component checks built per package: each package ships CONFIG_SNIPPET.py (a dict in the format
# above and/or named sub-check dicts); they are loaded here so the package stays the single source.
import os, re

_HERE = os.path.dirname(os.path.abspath(__file__))

def _load_snippet(pkg):
    path = os.path.join(_HERE, "harness", pkg, "CONFIG_SNIPPET.py")
    src = open(path).read()
    lines = src.split("\n")
    for i, l in enumerate(lines):
        if l.startswith("{"):
            lines[i] = "MAIN = " + l
            break
        if re.match(r"^[A-Za-z_]", l):
            break
    ns = {"rp": rp}
    exec("\n".join(lines), ns)
    return ns

_p08 = _load_snippet("p08")
CHECKS["C08"] = _p08["MAIN"]

_p12 = _load_snippet("p12")
CHECKS["C12"] = _p12["MAIN"]

_p13 = _load_snippet("p13")
CHECKS["C13"] = _p13["C13"]

_p14 = _load_snippet("p14")
CHECKS["C14"] = _p14["MAIN"]

_p15 = _load_snippet("p15")
CHECKS["C15"] = _p15["MAIN"]

_p17 = _load_snippet("p17")
CHECKS["C17"] = _p17["MAIN"]

_p09 = _load_snippet("p09")
_parith = _load_snippet("parith")


# ---------------------------------------------------------------------------------------------
# E1 closed-loop checks (harness/sim + harness/pe1 + harness/p07)

E1_TRUST = ("Trusted base of every closed-loop verdict: the simulated API server (controller-runtime fake client + object tracker wrapped by simClient: "
            "UID / creationTimestamp / generation, status subresource, no-op writes not persisted, real mutating workload webhook on every workload UPDATE, "
            "real validating webhook on user Rollout writes, owner-reference GC, watch fan-out through the real event handlers, BatchRelease watch predicate "
            "re-implemented) and the knob-respecting workload environment (CloneSet partition rounded up, native Deployment / ReplicaSet rolling update within "
            "maxSurge / maxUnavailable, pods become ready, status published with lag). Time mode A (zero grace): package grace defaults are 0 through hooks, so no "
            "wait is ever observed. Built (kind, style) pairs: CloneSet/partition, Deployment/canary and Deployment/blue-green (optionally with an HPA); providers: none, Ingress nginx, Gateway API.")

E1_ASSUMPTIONS = [
    "Workload kinds / styles exercised in the closed loop: CloneSet partition-style, native Deployment canary-style and native Deployment blue-green (StatefulSet, DaemonSet, blue-green CloneSet and partition-style Deployment are covered by the component checks C01b/C07c/C11/C17 only).",
    "Blue-green environment limits: no proportional scaling across two active ReplicaSets, so blue-green runs are never scaled mid-release; availability is judged with the Deployment's minReadySeconds, not per ReplicaSet.",
    "History actions beyond reconcile / environment / user: 'settle' (controllers and environment run fairly until they wait), 'fault' (the N-th controller call, or the N-th call of a given kind/verb, fails or the process crashes after it), and per-check bursts that put a template change right behind a step transition.",
    "Listed findings are excluded by construction and counted (see known_findings.json): in the user model (template change while finalising, third template on a partition-style workload with traffic routing or during a blue-green release, scale across the size at which a traffic step covers the whole workload, exit before the BatchRelease took the workload over, CloneSet rollback the finder cannot recognise, plan edit raising the replicas of the upgraded current step, plan edit plus jump-to-self), in the generator (gateway or blue-green-last-step shapes) and in the schedule (a BatchRelease reconcile that would resume a superseded release on a revision the Rollout has not adopted). Exclusions of findings that can surface through one property's monitor only are active only in checks asserting that property.",
    "Traffic providers exercised in the closed loop: none, Ingress class nginx, Gateway API HTTPRoute (mse/alb/higress and custom Lua providers by C14/C15 only).",
    "Time mode A: defaultGracePeriodSeconds (rollout, trafficrouting controller, traffic manager) set to 0 through build-tag hooks; pause durations are 0 or manual; a non-zero RequeueAfter counts as a requested requeue.",
    "The user approves only while the stored state is StepPaused (as kubectl-kruise rollout approve does); rollout-id is written to workload LABELS (documented place).",
    "A write that changes nothing is not persisted and emits no event; the mutating webhook is skipped for such a request.",
    "Known finding excluded by construction and counted: the user reverts the template to the stable version before the Rollout controller recorded the release being reverted (see known_findings.json, c07-livelock-revert-to-stable-before-release-observed).",
]

def _e1(check, test, quick=1600, thorough=24000, pkg="pe1"):
    return {"name": check, "pkg": pkg, "test": test, "quick": rp(quick, 16, timeout=900, shrinktime="30s"), "thorough": rp(thorough, 16, timeout=3000, shrinktime="300s")}

def _e1_entry(title, check, test, rule_extra, nt):
    return {
        "level": "exploration", "engine": "E1",
        "technique": "model-based / stateful property-based testing (rapid): generated scenarios and histories on a closed-loop simulator running the real controllers; history invariants evaluated after every API write",
        "level_text": (title + " Decided by generated search: rapid draws a scenario (workload kind/style, replicas, 1-4 steps int/percent, pauses, provider, rollout-id, "
                       "failure threshold) and a history of up to ~150 scheduler actions (reconcile of any pending key, any knob-permitted environment step, user actions), the real "
                       "Rollout / BatchRelease reconcilers, webhooks, event handlers and providers run against the simulated API server, monitors judge every write (= every crash "
                       "point prefix), then a fair completion runs to the terminal state. A violation shrinks to a minimal scenario + action list (the replay file). Sampled, not exhaustive."),
        "level_note": E1_TRUST,
        "rule": ("Shared E1 generator biased per property: " + rule_extra + " Non-trivial: " + nt + " Distinct by scenario JSON + the sequence of user actions."),
        "assumptions": E1_ASSUMPTIONS,
        "subchecks": [_e1(check, test)],
    }

CHECKS["C02"] = _e1_entry("Step gating.", "c02-gating", "TestC02Gating",
    "user actions weighted towards pause/resume/jump/plan edit; monitor on every persisted Rollout status transition: leaving step k needs BatchRelease Ready seen for k, passage through StepTrafficRouting, approval or automatic pause; no cursor move / batchPartition raise / gateway write by a reconcile that began after spec.strategy.paused was persisted; non-sequential cursor moves need an outstanding user request; sub-state order.",
    "reached step >= 2 and a pause, jump, plan edit or scale happened.")
CHECKS["C03"] = _e1_entry("Traffic follows pods.", "c03-traffic-follows-pods", "TestC03TrafficFollowsPods",
    "always a provider and >= 1 traffic step; monitors: a canary share is installed only after the step's batch was reported Ready (O1); when the step leaves StepTrafficRouting the provider reader (nginx annotations / HTTPRoute weights and generated rules) returns exactly the step's weight / match, canary Service selects the canary revision, stable Service pinned (O2); first step with traffic: stable Service pinned before the first pods are exposed (O3).",
    "a traffic step was reached and the plan has >= 2 traffic configs, a jump, or step >= 2.")
CHECKS["C04"] = _e1_entry("No request routed into a void.", "c04-no-void", "TestC04NoVoid",
    "always a provider; user actions weighted towards rollback / new release / disable / delete; invariant on the whole store after every single write of every actor: a provider object routing to the canary Service implies it exists, is not being deleted and selects the canary revision; stable Service pinned to a revision while it receives traffic implies a live pod of that revision.",
    "a release reached step >= 1 with canary Service generation on.")
CHECKS["C04"]["subchecks"].append({"name": "c04-task-chains", "pkg": "pchains", "test": "TestC04TaskChains", "mode": "plain", "quick": rp(1, 1, timeout=120), "thorough": rp(1, 1, timeout=120)})
CHECKS["C10"] = _e1_entry("Rollback and supersession.", "c10-cancel", "TestC10RollbackFirst",
    "always a provider; rollbacks and superseding releases at drawn points, plus 'settle' actions and bursts (settle, approve, k reconciles, rollback|release) that place the template change right behind a step transition. "
    "A template change while the Rollout is Progressing (InRolling / Paused) is classified from the history: rollback = the template last seen Healthy AND the revision the Rollout records as stable; supersede = a third template. "
    "Oracles on the write log while such a cancel is in flight: (1) every controller write that removes new-revision pods or hands the workload back (BatchRelease deleted or un-partitioned, control-info removed, workload un-paused, canary Deployment deleted or scaled down) "
    "must find the gateway free of any canary share / match; (2) when the progressing condition of a rolled-back release ends, Succeeded must be False; (3) when the Rollout records the superseding revision it must be at step 1; "
    "(4) between a supersession and that restart the BatchRelease controller must not raise the workload's exposure beyond step one; (5) blue-green: after a third template the controllers must not un-pause the Deployment or widen its surge.",
    "a rollback / supersession hit a progressing release and at least one oracle judged something (hand-back write while armed with canary traffic, rollback completion, supersession restart).")
CHECKS["C10"]["subchecks"].append({"name": "c10-task-chains", "pkg": "pchains", "test": "TestC10TaskChains", "mode": "plain", "quick": rp(1, 1, timeout=120), "thorough": rp(1, 1, timeout=120)})
CHECKS["C18"] = _e1_entry("Finalizers guard teardown.", "c18-rollout-finalizer", "TestC18Finalizers",
    "deletion requested at a drawn point, controller restarts allowed, and injected faults: a 'fault' action arms one fault at a time - the N-th controller call from now fails (API error before the call, lost response after a write, conflict) or the process crashes after the N-th write, or the N-th call of a drawn kind/verb (e.g. Deployment/update, BatchRelease/delete, Service/patch) fails - drawn anywhere and, with probability 2/3, right behind a delete / disable / rollback. "
    "Monitors: the write that removes the Rollout finalizer (or the object) must find no residue (no canary share / canary reference, no canary Service / Ingress, stable Service un-pinned, workload without in-progressing / control-info, BatchRelease gone, no canary Deployment still holding the BatchRelease's protection finalizer); the write that removes the BatchRelease's own finalizer must find the workload released and no canary Deployment still holding that finalizer; fair completion must end with the object gone. TrafficRouting objects are not part of the closed loop; their finalizer is decided by the component check c18-trafficrouting-finalizer.",
    "the Rollout was deleted after step >= 1.")
CHECKS["C18"]["level"] = "fault_enumeration"
CHECKS["C18"]["engine"] = "E1+E2"
CHECKS["C18"]["technique"] = (CHECKS["C18"]["technique"] + "; generated fault injection inside the histories (the N-th controller call, or the N-th call of a drawn kind/verb, fails; lost responses, conflicts, "
                              "crash after a write) with residue oracles at the writes that remove the Rollout / BatchRelease finalizers; plus a component-level rapid state machine on the real TrafficRouting reconciler (ticking grace clock, injected API errors)")
CHECKS["C18"]["subchecks"].append({"name": "c18-trafficrouting-finalizer", "pkg": "p18t", "test": "TestC18TrafficRoutingFinalizer", "quick": rp(16000, 8, timeout=600, shrinktime="30s"), "thorough": rp(320000, 16, timeout=3000, shrinktime="120s")})
CHECKS["C18"]["rule"] += (" TrafficRouting (c18-trafficrouting-finalizer, component level): the real TrafficRoutingReconciler on the controller-runtime fake client (objects with finalizers stay until the last one is removed), "
                          "grace 0 / 1 / 3 s with the grace package's clock ticked through the verif hook; generated histories of reconcile / tick / a Rollout starts or stops using it (progressing finalizer) / delete / 'the N-th API call from now fails'; "
                          "after every step: if the deleted TrafficRouting is gone or has lost rollouts.kruise.io/trafficrouting, no canary Ingress may be left; after a fair completion the deleted object must be gone. Non-trivial: deleted after the canary Ingress existed.")
CHECKS["C18"]["assumptions"] = list(CHECKS["C18"]["assumptions"]) + ["c18-trafficrouting-finalizer: one TrafficRouting with an Ingress (nginx) reference used by at most one Rollout; Gateway / custom references and sharing between Rollouts are not generated."]

# C01: arithmetic (parith) + closed loop
CHECKS["C01"] = dict(_parith["MAIN"]["C01"])
CHECKS["C01"]["engine"] = "E3+E1"
CHECKS["C01"]["technique"] = (CHECKS["C01"]["technique"] + "; plus stateful property-based testing (rapid): the real BatchRelease controller under generated plan / partition / scale histories (knob writes judged against a reference), "
                              "and the closed-loop simulator (exposure of every knob write bounded by the current step, after every API write)")
CHECKS["C01"]["subchecks"] = list(_parith["MAIN"]["C01"]["subchecks"]) + [_e1("c01-closed-loop", "TestC01ClosedLoop")]
CHECKS["C01"]["assumptions"] = list(_parith["MAIN"]["C01"]["assumptions"]) + E1_ASSUMPTIONS
CHECKS["C01"]["rule"] += (" Closed loop (c01-closed-loop): shared E1 generator with scale / plan-edit / jump weighted up and occasional 100-130 replicas; at every BatchRelease spec write by the Rollout controller "
                          "the batches equal the Rollout's steps and batchPartition <= persisted currentStepIndex-1; at every knob write by the BatchRelease controller exposure(knob) <= planned(batches[batchPartition]) "
                          "+ ceil(n/100) slack for percent plans on CloneSet, and exposure never decreases within an epoch (no user scale / plan edit / jump / template change in between).")

# C07: liveness (E1) + arithmetic (parith) + provider fixed points (p13, p14, p15)
CHECKS["C07"] = dict(_parith["MAIN"]["C07"])
CHECKS["C07"]["engine"] = "E1+E2+E3"
CHECKS["C07"]["subchecks"] = ([_e1("c07-liveness", "TestC07Liveness", pkg="p07")] + list(_parith["MAIN"]["C07"]["subchecks"]) +
                              [_p13["C07_GATEWAY_SUBCHECK"], _p14["C07_INGRESS_SUBCHECK"]] + list(_p15["MAIN"]["for_C07"]["subchecks"]))
CHECKS["C07"]["assumptions"] = (list(_parith["MAIN"]["C07"]["assumptions"]) + E1_ASSUMPTIONS + list(_p13["C07_GATEWAY_ASSUMPTIONS"]) + list(_p15["MAIN"]["for_C07"]["assumptions"]))
CHECKS["C07"]["rule"] += (" Liveness (c07-liveness): shared E1 generator, any history prefix, then the deterministic fair schedule (round-robin reconcile / healthy environment step, approvals and resumes granted at once) "
                          "must reach the terminal state within 1500+500*steps iterations; 'stuck' (nothing enabled) and budget exhaustion are violations with a signature naming where the run is parked. "
                          "Provider fixed points (c07-fixedpoint-*): " + _p15["MAIN"]["for_C07"]["rule_fragment"])

# C09: admission (p09) + reachability (E1)
CHECKS["C09"] = dict(_p09["MAIN"])
CHECKS["C09"]["engine"] = "E2+E1"
CHECKS["C09"]["subchecks"] = list(_p09["MAIN"]["subchecks"]) + [_e1("c09-reachability", "TestC09Reachability")]
CHECKS["C09"]["assumptions"] = list(_p09["MAIN"]["assumptions"]) + E1_ASSUMPTIONS
CHECKS["C09"]["rule"] += (" Reachability (c09-reachability): shared E1 generator; the user additionally patches status.*.nextStepIndex with any of {MinInt32,-1,0,1..6,100,MaxInt32} at any time, edits steps, scales, "
                          "disables / enables / deletes; every Reconcile, event handler and webhook call runs under recover: a panic is a violation with its stack.")


CHECKS["C05"] = _e1_entry("Every exit path restores the user's configuration.", "c05-exit-restore", "TestC05ExitRestore",
    "user actions weighted towards rollback / disable / delete (the exit is whatever the drawn history contains, taken at a drawn point); after the fair completion reaches the terminal state the final store is compared with the configuration recorded before the release: no canary Service / Ingress / Deployment, no BatchRelease, no in-progressing / control-info / strategy annotations, workload un-paused with partition absent/0 and the user's strategy, stable Service selector, stable Ingress and HTTPRoute traffic shares as the user wrote them, every pod on the desired revision and ready.",
    "the release reached step >= 1 and the run reached the terminal state.")

CHECKS["C06"] = _e1_entry("Crashes and API errors never corrupt a rollout.", "c06-fault-enumeration", "TestC06FaultEnumeration",
    "per case a baseline (scenario + generated prefix + fair completion, fault-free, W controller writes, K controller calls) and then one re-run per injected fault: crash after controller write i (the running reconcile is aborted, every later call of it fails, all controllers restart with empty in-memory state and re-listed queues) for every i (quick: at most 120 evenly spread), API error before call j, conflict before write i, lost response after write i (quick: 25 evenly spread indices each; thorough: up to 600 evenly spread indices each), plus one random multi-fault run. Oracles per faulty run: all monitors of C01-C05/C09/C10/C18 hold on every prefix, the run reaches the terminal state, the cluster is clean, and the normalised final store equals the baseline's.",
    "the fault actually fired (index within the faulty run's own call sequence).")
CHECKS["C06"]["level"] = "fault_enumeration"
CHECKS["C06"]["subchecks"] = [{"name": "c06-fault-enumeration", "pkg": "p06", "test": "TestC06FaultEnumeration", "quick": rp(16, 16, timeout=1200, shrinktime="120s"), "thorough": rp(96, 16, timeout=6000, shrinktime="240s")}]


_p11 = _load_snippet("p11")
_p16 = _load_snippet("p16")

CHECKS["C11"] = _p11["MAIN"]["C11"]
CHECKS["C16"] = _p16["MAIN"]
# C01(b): BatchRelease-level knob oracle from the p11 machine
CHECKS["C01"]["subchecks"] = CHECKS["C01"]["subchecks"] + list(_p11["MAIN"]["C01B"]["subchecks"])
CHECKS["C01"]["assumptions"] = CHECKS["C01"]["assumptions"] + list(_p11["MAIN"]["C01B"].get("assumptions", []))
CHECKS["C01"]["rule"] += " BatchRelease level (c01-batchrelease-knob): " + _p11["MAIN"]["C01B"].get("rule", "")
CHECKS["C01"]["engine"] = "E3+E2+E1"


CHECKS["C19"] = {
    "level": "exploration", "engine": "E1+E2",
    "technique": "stateful property-based testing (rapid) of several rollouts interleaved on one controller process (ownership + differential oracle) and a 4-worker concurrent run under the Go race detector; metamorphic non-interference testing (rapid) of trafficrouting.Manager for two tenants with identical object names and running grace timers",
    "level_text": ("Isolation decided by generated search. (a) Deterministic interleaving: 2-3 generated rollouts (same and different namespaces, names that are prefixes of each other "
                   "demo / demo-a, same name in two namespaces, hence identically named Services / Ingresses / routes across namespaces) are driven on ONE simulated cluster and ONE set of "
                   "reconcilers by a generated interleaving of reconciles, environment steps and per-rollout user actions; oracles: every write issued while reconciling key K touches only "
                   "objects of K's own rollout (resolved by exact names and owner references), no panic, every rollout reaches its terminal state, and for timing-insensitive histories the "
                   "normalised final state of each rollout equals that of its solo run. (b) The same scenarios with reconciles executed by 4 worker goroutines (API calls serialised by a lock, "
                   "as an API server serialises writes) in a binary built with -race, plus a 16-goroutine hammer on grace timers, creation expectations and the Lua runtime: any race report, panic "
                   "or non-termination is a violation. Go-scheduler interleavings are explored only by chance; a race is reproducible only statistically. (c) Non-interference with RUNNING grace timers at the level of "
                   "trafficrouting.Manager: two tenants in different namespaces with identical object names (stable Service, canary Service, Ingress) and different grace periods call PatchStableService / "
                   "RestoreStableService / RemoveCanaryService / RestoreGateway in a generated interleaving with clock ticks (grace.ShiftForVerif); everything tenant A observes (retry/error of each call, its objects "
                   "afterwards) must equal the run from which tenant B's calls are deleted."),
    "level_note": E1_TRUST + " In (b) environment and user steps run in serial phases between the parallel reconcile phases so that the harness itself has no shared unsynchronised state.",
    "rule": ("rapid: 2-4 scenarios from the shared E1 generator placed on {ns1/demo, ns1/demo-a, ns2/demo, ns2/demo-a}; histories of up to 200 actions with a drawn target rollout per user action; half of the "
             "cases contain only release + approvals (these get the solo differential). Non-trivial: more than 10 generated actions beyond the releases (a) / >= 2 rollouts (b) / tenant A waited on a grace timer at least once while tenant B made calls (c). Distinct by scenarios + user action sequence."),
    "assumptions": E1_ASSUMPTIONS + ["Grace periods are 0 in the closed-loop time mode, so cross-talk through grace-timer keys is not reachable there; it is decided by (c) on trafficrouting.Manager alone, with the controller-runtime fake client and explicit object UIDs (the real API server assigns unique UIDs)."],
    "subchecks": [
        {"name": "c19-interleaved", "pkg": "p19", "test": "TestC19Interleaved", "quick": rp(192, 16, timeout=900, shrinktime="30s"), "thorough": rp(4800, 16, timeout=3000, shrinktime="300s")},
        {"name": "c19-concurrent-race", "pkg": "p19", "test": "TestC19ConcurrentRace", "race": True, "quick": rp(32, 16, timeout=900, shrinktime="30s"), "thorough": rp(640, 16, timeout=3000, shrinktime="120s")},
        {"name": "c19-helper-hammer", "pkg": "p19", "test": "TestC19HelperHammer", "race": True, "mode": "plain", "quick": rp(1, 4, timeout=300), "thorough": rp(1, 16, timeout=300)},
        {"name": "c19-manager-isolation", "pkg": "p19m", "test": "TestC19ManagerIsolation", "quick": rp(8000, 8, timeout=600, shrinktime="30s"), "thorough": rp(160000, 16, timeout=3000, shrinktime="120s")},
    ],
}
